// C19 / C02: a "safe" callback of create_basic_sender invoked after the sender has completed and its operation state has been
// destroyed -- the documented use case -- still reaches the destroyed operation whenever another safe callback's frame is on a stack.
//
// _callback::operator()      { if (auto ptr = this->get()) { ptr.op<Op>()->callback_impl(...) ... } }
// keeps the locked shared_ptr<void*> `ptr` alive across callback_impl(), i.e. across complete() -> receiver -> destruction of the
// operation.  safe_cb_holder_.reset() therefore does not expire the weak_ptr while the completing callback is still running the
// receiver's continuation, and the heap cell still holds the (now dangling) operation pointer: a late callback arriving in that
// window (here: synchronously from the continuation, single-threaded; equally from any other thread) gets a non-null ptr and calls
// callback_impl() on the destroyed operation.
//   g++ -std=c++20 -g -DNDEBUG -fsanitize=address -I/repo/include -I/repo/_build/include X.cpp /repo/_build/source/libunifex.a -lpthread
#include <unifex/create_basic_sender.hpp>
#include <unifex/sender_concepts.hpp>

#include <cstdio>
#include <functional>

using namespace unifex;

static std::function<void(int)> g_cb;          // the safe callback handed to the "async API"
static std::function<void()> g_destroy_op;

struct Recv {
  void set_value(int) && noexcept {
    g_destroy_op();          // the receiver destroys the operation state: the sender has completed
    g_cb(2);                 // a late invocation of the safe callback: documented to be safe ("no-op")
  }
  void set_error(std::exception_ptr) && noexcept { g_destroy_op(); }
  void set_done() && noexcept { g_destroy_op(); }
};

int main() {
  auto sender = create_basic_sender<int>([](auto event, auto& op, auto&&... args) {
    if constexpr (event.is_start) {
      g_cb = safe_callback<int>(op);
    } else if constexpr (event.is_callback) {
      op.set_value(1);
    }
  });
  using Op = connect_result_t<decltype(sender), Recv>;
  Op* op = new Op(connect(std::move(sender), Recv{}));
  g_destroy_op = [&] { delete op; op = nullptr; };
  start(*op);
  g_cb(1);                   // the completion
  std::printf("finished without a sanitizer report\n");
}
