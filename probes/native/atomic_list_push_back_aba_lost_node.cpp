// atomic_intrusive_list: try_lock_checking() is exposed to ABA on the link word; push_back_impl (and drain_into_impl /
// latch_and_drain_impl, which use it the same way) then link the new node over a node that is still in the list.
//
//   try_lock_checking(lk, monitored, expected, head_val):
//       t1  val = lk.load()                         (or: the failed compare_exchange_weak wrote the current value into val)
//       t2  monitored.load() == expected ?          (sentinel_.self == pred_link ?)
//       t3  lk.compare_exchange_weak(val, val|1)    succeeds iff lk == val   -- NOT iff "lk was never changed since t1"
//   If lk goes  B -> &sentinel_ -> B  between t1 and t3 (B popped/removed, then the same address pushed again: a lock
//   operation living in a reused coroutine frame / stack slot), t2 sees sentinel_.self == &head_ and t3 succeeds with
//   head_val == B although head_ points to B, not to the sentinel.  push_back_impl only ASSERTS pred_val == &sentinel_
//   (a no-op with NDEBUG) and stores  head_ = item  ->  B is no longer reachable: a lost waiter (C15) / lost wait (C16).
//   try_remove_impl is not affected: it re-reads item->self AFTER the lock is held.
//
// Forced schedule, deterministic, ONE thread: the real source/atomic_intrusive_list.cpp is compiled unchanged; two
// scheduling points are spliced in by macro at the acquire fence (between t1 and t2) and at the CAS (between t2 and t3);
// at those points the "other threads" (pop_front by the mutex holder, push_back by the re-started waiter) run to completion.
//
//   g++ -std=c++17 -O2 -DNDEBUG -I/repo/include -I/repo/_build/include atomic_list_push_back_aba_lost_node.cpp -o aba && ./aba
//   BEFORE the fix (finding C15-atomic-list-aba) the output ends with:
//       LOST NODE: B was pushed and never popped/removed, but the list no longer contains it
//   (without -DNDEBUG the library's own UNIFEX_ASSERT(pred_val == to_value(&sentinel_)) fired instead).
//   AFTER the fix (push_back_impl / drain_into_impl / latch_and_drain_impl re-check pred_val == &sentinel_ under the lock,
//   unlock unchanged and retry otherwise):  "list now: B V" / "no loss observed", exit status 0.
#include <atomic>
#include <cassert>
#include <cstdint>
#include <cstdio>
#include <type_traits>
#include <unifex/config.hpp>

static void hook_fence();
static void hook_cas();
#define atomic_thread_fence(mo) atomic_thread_fence((hook_fence(), (mo)))
#define compare_exchange_weak(e, ...) compare_exchange_weak((hook_cas(), (e)), __VA_ARGS__)
#include "/repo/source/atomic_intrusive_list.cpp"
#undef atomic_thread_fence
#undef compare_exchange_weak

struct waiter : unifex::atomic_intrusive_list_node { const char* name; };
static unifex::atomic_intrusive_list<waiter> list;
static waiter B, V;
static bool armed = false;
static int fences = 0, cases = 0;

static void other_threads(const char* what) { std::printf("    [other threads] %s\n", what); }
static void hook_fence() {
  if (!armed) return;
  ++fences;
  if (fences == 2) {                  // victim holds val == B (from the failed CAS); before it re-checks sentinel_.self
    armed = false;
    other_threads("holder: pop_front() -> B (B gets the lock, runs its critical section, unlocks, its operation is destroyed)");
    waiter* w = list.pop_front();
    if (w != &B) std::printf("unexpected pop\n");
    armed = true;
  }
}
static void hook_cas() {
  if (!armed) return;
  ++cases;
  armed = false;
  if (cases == 1) {                   // victim read head_ == &sentinel_ (empty list) and sentinel_.self == &head_
    other_threads("waiter B: push_back(B)   (head_ -> B)");
    list.push_back(&B);
  } else if (cases == 2) {            // victim re-checked sentinel_.self == &head_ (list empty again), val is still B
    other_threads("a new lock operation at the SAME address B: push_back(B)   (head_ -> B again)");
    list.push_back(&B);
  }
  armed = true;
}

int main() {
  B.name = "B"; V.name = "V";
  std::printf("victim thread: push_back(V) on an empty list\n");
  armed = true;
  list.push_back(&V);
  armed = false;
  std::printf("victim thread: push_back(V) returned\n");
  bool sawB = false, sawV = false;
  std::printf("list now:");
  while (waiter* w = list.pop_front()) { std::printf(" %s", w->name); sawB |= (w == &B); sawV |= (w == &V); }
  std::printf("\n");
  if (!sawB) {
    std::printf("LOST NODE: B was pushed and never popped/removed, but the list no longer contains it (B.self=%p stale, &head_ unreachable)\n",
                (void*)B.self.load());
    return 1;
  }
  std::printf("no loss observed (B=%d V=%d)\n", sawB, sawV);
  return 0;
}
