#include <unifex/find_if.hpp>
#include <unifex/just.hpp>
#include <unifex/static_thread_pool.hpp>
#include <unifex/sync_wait.hpp>
#include <unifex/then.hpp>
#include <unifex/on.hpp>
#include <vector>
#include <cstdio>
#include <atomic>
using namespace unifex;
int main(int argc, char** argv) {
  int n = argc > 1 ? atoi(argv[1]) : 216;
  std::vector<int> buf(n + 4096, 0);
  int* lo = buf.data() + 2048; int* hi = lo + n;
  std::atomic<int> oob{0}; std::atomic<long> calls{0};
  static_thread_pool ctx(2);
  std::optional<int*> r = sync_wait(unifex::on(ctx.get_scheduler(), then(
      find_if(just(lo, hi),
              [&](const int& x) noexcept { if (++calls > 100000) return true; if (&x < lo || &x >= hi) { oob++; } return false; }, unifex::par),
      [](int* it) noexcept { return it; })));
  printf("n=%d oob=%d calls=%ld found_end=%d\n", n, oob.load(), calls.load(), (int)(*r == hi));
  return oob.load() ? 1 : 0;
}
