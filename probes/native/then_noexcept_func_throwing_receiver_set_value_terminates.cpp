// OBSERVATION behind an assumption of specs/then_family (not claimed as a defect of C05/C01 as worded):
// then / upon_error / upon_done choose the branch WITHOUT try block whenever the FUNCTION is nothrow-invocable, although the
// member (set_value / set_error / set_done of the adaptor's receiver) is unconditionally noexcept and the downstream receiver's
// set_value may throw.  The same downstream exception is
//   - turned into set_error(current_exception) when the function is potentially throwing (try branch),
//   - std::terminate when the function is noexcept (try-less branch).
// build: g++ -std=c++17 -O1 -g -DNDEBUG -I/repo/include -I/repo/_build/include x.cpp /repo/_build/source/libunifex.a -lpthread
// run:   ./a.out        -> case 1 prints set_error(exception_ptr); case 3 (then, noexcept f) reaches std::terminate (exit 3)
//        ./a.out done   -> case 2 (upon_done, noexcept f) reaches std::terminate (exit 3)
#include <unifex/just.hpp>
#include <unifex/just_done.hpp>
#include <unifex/sender_concepts.hpp>
#include <unifex/then.hpp>
#include <unifex/upon_done.hpp>

#include <cstdio>
#include <cstdlib>
#include <exception>
#include <stdexcept>

struct R {
  void set_value() && {
    std::puts("  receiver.set_value throws");
    throw std::runtime_error("rcv");
  }
  void set_error(std::exception_ptr) && noexcept { std::puts("  receiver.set_error(exception_ptr)"); }
  void set_done() && noexcept { std::puts("  receiver.set_done"); }
};

int main(int argc, char**) {
  setvbuf(stdout, nullptr, _IONBF, 0);
  std::set_terminate([] {
    std::puts("  std::terminate reached");
    std::_Exit(3);
  });
  {
    std::puts("1: then(just(), potentially-throwing f):");
    auto op = unifex::connect(unifex::then(unifex::just(), [] {}), R{});
    unifex::start(op);
  }
  if (argc > 1) {
    std::puts("2: upon_done(just_done(), noexcept f):");
    auto op = unifex::connect(unifex::upon_done(unifex::just_done(), []() noexcept {}), R{});
    unifex::start(op);
  }
  {
    std::puts("3: then(just(), noexcept f):");
    auto op = unifex::connect(unifex::then(unifex::just(), []() noexcept {}), R{});
    unifex::start(op);
  }
  return 0;
}
