// Async stacks (debug configuration): the frame an operation activates in start() is not deactivated again when the
// operation is still running when start() returns.
//
//   _inject::_op_wrapper::start():   _root_and_frame_ref rf{frame_, parent};   // ScopedAsyncStackRoot + activateFrame(frame_)
//                                    unifex::start(op_);
//                                  } // ~_root_and_frame_ref -> root_.ensureFrameDeactivated(&frame_)
//   ensureFrameDeactivated only clears root_.topFrame ("doesn't make assertions about the possibly-dead frame"); for a
//   frame that is ALIVE (every operation that does not complete inside start()) frame_.stackRoot keeps pointing at the
//   ScopedAsyncStackRoot that is destroyed a moment later: the frame stays "attached" to a dead root (dangling pointer;
//   re-activating such a frame would trip assert(frame.stackRoot == nullptr) in AsyncStackRoot::setTopFrame).
// Verifier: specs/async_stack, contract of ScopedAsyncStackRoot_ensureFrameDeactivated (the well-formedness
// postcondition cannot be stated for a live frame that is still the top frame; see the group's assumptions).
//
//   g++ -std=c++17 -g -UNDEBUG -DUNIFEX_NO_ASYNC_STACKS=0 -I/repo/include -I/repo/_build/include \
//       async_stack_op_frame_left_attached.cpp /repo/source/async_stack.cpp -lpthread && ./a.out
#include <unifex/sender_concepts.hpp>
#include <unifex/receiver_concepts.hpp>
#include <unifex/tracing/async_stack.hpp>
#include <unifex/tracing/get_async_stack_frame.hpp>
#include <cstdio>
#include <exception>
using namespace unifex;

static AsyncStackFrame* opFrame;      // the wrapper operation's frame, as handed to its child
static AsyncStackRoot* rootDuringStart;

template <typename R>
struct pending_op {                   // an operation that stays pending after start()
  R r;
  void start() noexcept {
    opFrame = get_async_stack_frame(r);
    rootDuringStart = tryGetCurrentAsyncStackRoot();
    std::printf("  inside start(): frame=%p frame->stackRoot=%p current root=%p\n", (void*)opFrame,
                (void*)(opFrame ? opFrame->getStackRoot() : nullptr), (void*)rootDuringStart);
  }
};
struct pending_sender {
  template <template <typename...> class V, template <typename...> class T> using value_types = V<T<>>;
  template <template <typename...> class V> using error_types = V<std::exception_ptr>;
  static constexpr bool sends_done = true;
  template <typename R>
  friend pending_op<remove_cvref_t<R>> tag_invoke(tag_t<connect>, pending_sender, R&& r) noexcept { return {(R&&)r}; }
};
struct rcvr {
  void set_value() && noexcept {}
  void set_done() && noexcept {}
  void set_error(std::exception_ptr) && noexcept {}
};

int main() {
  auto op = unifex::connect(pending_sender{}, rcvr{});
  unifex::start(op);
  std::printf("after start(): current root=%p, frame->stackRoot=%p\n", (void*)tryGetCurrentAsyncStackRoot(),
              (void*)(opFrame ? opFrame->getStackRoot() : nullptr));
  if (opFrame && opFrame->getStackRoot() != nullptr) {
    std::printf("DEFECT: the operation is still alive, its frame is still attached to the root %p that start() has already destroyed\n",
                (void*)opFrame->getStackRoot());
    return 1;
  }
  std::printf("frame detached\n");
  return 0;
}
