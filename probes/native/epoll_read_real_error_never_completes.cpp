#include <unifex/linux/io_epoll_context.hpp>
#include <unifex/inplace_stop_token.hpp>
#include <unifex/sync_wait.hpp>
#include <unifex/scope_guard.hpp>
#include <unifex/span.hpp>
#include <cstdio>
#include <thread>
#include <vector>
#include <fcntl.h>
#include <unistd.h>
using namespace unifex; using namespace unifex::linuxos;
int main() {
  io_epoll_context ctx;
  inplace_stop_source stopSource;
  std::thread t{[&] { ctx.run(stopSource.get_token()); }};
  scope_guard stopOnExit = [&]() noexcept { stopSource.request_stop(); t.join(); };
  int fds[2]; if (pipe2(fds, O_NONBLOCK | O_CLOEXEC)) return 2;
  // a reader over the WRITE end of a pipe: readv() fails with EBADF
  io_epoll_context::async_reader bad{ctx, fds[1]};
  std::vector<char> buf(1);
  std::thread watchdog{[] { std::this_thread::sleep_for(std::chrono::seconds(3)); std::printf("HANG: read on a descriptor that fails with EBADF never completed\n"); std::_Exit(3); }};
  watchdog.detach();
  try {
    auto r = sync_wait(async_read_some(bad, as_writable_bytes(span{buf.data(), 1})));
    std::printf("completed: %s\n", r ? "value" : "done");
  } catch (const std::system_error& e) { std::printf("error: %d %s\n", e.code().value(), e.what()); }
  return 0;
}
