import re,sys
def strip_comments(s):
    out=[];i=0;n=len(s)
    while i<n:
        if s.startswith('//',i):
            j=s.find('\n',i); j=n if j<0 else j; i=j
        elif s.startswith('/*',i):
            j=s.find('*/',i)+2; out.append('\n'*s.count('\n',i,j)); i=j
        elif s[i]=='"':
            j=i+1
            while s[j]!='"': j+=2 if s[j]=='\\' else 1
            out.append(s[i:j+1]); i=j+1
        else: out.append(s[i]); i+=1
    return ''.join(out)
def match(s,i,o='{',c='}'):
    d=0
    while True:
        if s[i]==o: d+=1
        elif s[i]==c:
            d-=1
            if d==0: return i
        i+=1
def extract(path, sigre, occ=0):
    s=strip_comments(open(path).read())
    m=[x for x in re.finditer(sigre,s)][occ]
    b=s.index('{',m.end()-1)
    e=match(s,b)
    line=s.count('\n',0,m.start())+1
    return s[m.start():b], s[b:e+1], line
def split_args(a):
    out=[];d=0;cur=''
    for ch in a:
        if ch in '([{': d+=1
        if ch in ')]}': d-=1
        if ch==',' and d==0: out.append(cur.strip()); cur=''
        else: cur+=ch
    if cur.strip(): out.append(cur.strip())
    return out
RECV=r'(?P<recv>(?:\*?[A-Za-z_]\w*)(?:(?:->|\.)\w+|\[[^\]]*\])*)'
def rewrite_atomic(body):
    # X.op(args)  ->  VF_OP(&(X), args)
    ops={'load':'VF_LOAD','store':'VF_STORE','exchange':'VF_XCHG','fetch_add':'VF_FETCH_ADD','fetch_sub':'VF_FETCH_SUB','fetch_or':'VF_FETCH_OR','fetch_and':'VF_FETCH_AND','compare_exchange_weak':'VF_CAS_WEAK','compare_exchange_strong':'VF_CAS_STRONG'}
    pat=re.compile(RECV+r'\s*\.\s*(?P<op>'+'|'.join(ops)+r')\s*\(')
    while True:
        m=pat.search(body)
        if not m: return body
        p=m.end()-1; e=match(body,p,'(',')')
        args=split_args(body[p+1:e])
        if m.group('op').startswith('compare_exchange'): args[0]='&('+args[0]+')'
        body=body[:m.start()]+ops[m.group('op')]+'(&('+m.group('recv')+')'+''.join(', '+a for a in args)+')'+body[e+1:]
def rewrite(body, members, cls, methods, extra=()):
    b=body
    b=rewrite_atomic(b)
    b=re.sub(r'std::memory_order_(\w+)',r'VF_MO_\1',b)
    b=re.sub(r'\bnullptr\b','NULL',b)
    b=re.sub(r'\bauto\s*\*',r'__auto_type ',b); b=re.sub(r'\bauto\b','__auto_type',b)
    b=re.sub(r'\b(static_cast|reinterpret_cast|const_cast)<([^<>]*(?:<[^<>]*>)?[^<>]*)>\s*\(',lambda m:'(('+m.group(2)+')(',b)  # closes paren below
    b=re.sub(r'UNIFEX_ASSERT\(',r'VF_ASSERT(',b)
    b=re.sub(r'std::this_thread::get_id\(\)','VF_this_thread_id()',b)
    for pat,rep in extra: b=re.sub(pat,rep,b)
    for me in methods:
        b=re.sub(r'(?<![\w.>:])'+me+r'\s*\(\s*\)',cls+'_'+me+'(self)',b)
        b=re.sub(r'(?<![\w.>:])'+me+r'\s*\(',cls+'_'+me+'(self, ',b)
    for mem in members:
        b=re.sub(r'(?<![\w.>])'+mem+r'\b','self->'+mem,b)
    b=re.sub(r'\bthis\b','self',b)
    return b
if __name__=='__main__':
    sig,body,line=extract('/repo/source/inplace_stop_token.cpp', r'bool inplace_stop_source::request_stop\(\)')
    print('#line',line); print(rewrite(body,['state_','callbacks_','notifyingThreadId_'],'inplace_stop_source',['try_lock_unless_stop_requested','lock','unlock'],[(r'(\w+)->execute\(\)',r'EV_execute(\1)'),(r'\bbool\b','_Bool')]))
    sig,body,line=extract('/repo/source/inplace_stop_token.cpp', r'void inplace_stop_source::remove_callback\(')
    print('#line',line); print(rewrite(body,['state_','callbacks_','notifyingThreadId_'],'inplace_stop_source',['try_lock_unless_stop_requested','lock','unlock'],[(r'spin_wait spin;','struct spin_wait spin;'),(r'spin\.wait\(\)','spin_wait_wait(&spin)')]))
    sig,body,line=extract('/repo/include/unifex/v2/async_scope.hpp', r'friend bool try_record_start\(async_scope\* scope\)')
    print('#line',line,sig); print(rewrite(body,[],'async_scope',[],[]))
    sig,body,line=extract('/repo/include/unifex/detail/intrusive_heap.hpp', r'void insert\(T\* item\)')
    print('#line',line,sig); print(rewrite(body,['head_'],'intrusive_heap',[],[(r'->\*Next','->timerNext_'),(r'->\*Prev','->timerPrev_'),(r'->\*SortKey','->dueTime_')]))
