/* Native replay shim (R2, DESIGN.md section 8.3): the generated C compiles with gcc
 * unchanged; contract clauses expand to nothing (the runner emits f__checked()
 * wrappers that evaluate the ensures clauses), assume/assert become run-time
 * checks, nondeterministic choices are read from the verifier's trace. */
#ifndef VF_NATIVE_H
#define VF_NATIVE_H
#include <stdio.h>
#include <stdlib.h>
#include <string.h>
#define __CPROVER_requires(...)
#define __CPROVER_ensures(...)
#define __CPROVER_assigns(...)
#define __CPROVER_loop_invariant(...)
#define __CPROVER_decreases(...)
#define __CPROVER_assume(c) do { if (!(c)) { printf("REPLAY-INVALID: assumption %s (line %d)\n", #c, __LINE__); exit(77); } } while (0)
#define __CPROVER_assert(c, msg) do { if (!(c)) { if (strncmp(msg, "VACUITY-CANARY", 14) != 0) { printf("REPLAY-FAIL: %s (line %d)\n", msg, __LINE__); exit(1); } } } while (0)
#define __CPROVER_same_object(a, b) 1
#define __CPROVER_POINTER_OFFSET(a) 0
static FILE* vf_trace_f;
static unsigned long long vf_next_value(const char* ty) {
  unsigned long long v = 0;
  if (!vf_trace_f) { const char* p = getenv("VF_TRACE"); vf_trace_f = p ? fopen(p, "r") : NULL; }
  if (!vf_trace_f || fscanf(vf_trace_f, "%llu", &v) != 1) { return 0; }
  return v;
}
#define VF_NONDET_BODY(T) { return (T)vf_next_value(#T); }
#endif
