/* Monitor model (DESIGN.md section 3.2, assumption 9.2): std::mutex + std::condition_variable.
 *
 * A group that includes this header defines (before or after including it):
 *   static void vf_monitor_enter(struct vf_mutex* m);   acquire: other threads may have changed the protected state:
 *                                                       havoc it subject to the monitor invariant (window_build)
 *   static void vf_monitor_exit(struct vf_mutex* m);    release: assert the monitor invariant (VF_P) and record what
 *                                                       the contract needs about the state left behind
 *   static void vf_cv_wait_check(struct vf_cv* cv, struct vf_mutex* m);  obligation at a wait: the thread blocks only
 *                                                       while its wait condition holds under the lock
 * VF_CV_WAIT = check; release; (other threads run; spurious wake-ups included); acquire.
 * RAII unlock is explicit: the extractor inserts VF_SCOPE_EXIT(m) before every return of the declaring block and at
 * its end; it releases iff this call still holds the lock (unique_lock::owns_lock()). */
#ifndef VF_MONITOR_H
#define VF_MONITOR_H
struct vf_mutex { _Bool held; unsigned acquired, released; };
struct vf_cv { unsigned notify_one, notify_all, waits; };
static void vf_monitor_enter(struct vf_mutex* m);
static void vf_monitor_exit(struct vf_mutex* m);
static void vf_cv_wait_check(struct vf_cv* cv, struct vf_mutex* m);
static void vf_cv_wait_until_check(struct vf_cv* cv, struct vf_mutex* m, int64_t deadline);   /* only groups that use wait_until define it */
#define VF_ACQUIRE(m)     do { VF_P(!(m)->held, "a mutex is not acquired recursively by the same call"); (m)->held = 1; (m)->acquired++; vf_monitor_enter(m); } while (0)
#define VF_TRY_ACQUIRE(m) do { VF_P(!(m)->held, "a mutex is not acquired recursively by the same call"); if (VF_nondet_bool()) { (m)->held = 1; (m)->acquired++; vf_monitor_enter(m); } } while (0)
#define VF_RELEASE(m)     do { VF_P((m)->held, "only a held mutex is released"); vf_monitor_exit(m); (m)->held = 0; (m)->released++; } while (0)
#define VF_HELD(m)        ((m)->held)
#define VF_SCOPE_EXIT(m)  do { if ((m)->held) { VF_RELEASE(m); } } while (0)
#define VF_CV_WAIT(cv, m) do { VF_P((m)->held, "condition_variable::wait is called with the lock held"); vf_cv_wait_check(cv, m); (cv)->waits++; \
                               vf_monitor_exit(m); (m)->held = 0; (m)->held = 1; vf_monitor_enter(m); } while (0)
#define VF_CV_WAIT_UNTIL(cv, m, t) do { VF_P((m)->held, "condition_variable::wait_until is called with the lock held"); vf_cv_wait_until_check(cv, m, (int64_t)(t)); (cv)->waits++; \
                               vf_monitor_exit(m); (m)->held = 0; (m)->held = 1; vf_monitor_enter(m); } while (0)
#define VF_NOTIFY_ONE(cv) ((void)((cv)->notify_one++))
#define VF_NOTIFY_ALL(cv) ((void)((cv)->notify_all++))
#endif
