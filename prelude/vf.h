/* Prelude shared by every generated translation unit (DESIGN.md section 3.2).
 *
 * What an atomic access, a fence, an assertion and a nondeterministic choice
 * are to the verifier.  A group's template defines, BEFORE including this file
 * or right after it:
 *     static void vf_interfere(void);   environment step: havoc the group's shared
 *                                       locations subject to the rely
 *     VF_G(p, old, new)                 guarantee check + linearisation record for a
 *                                       write the verified function performs
 * Memory orders are carried and ignored: atomics are sequentially consistent.
 */
#ifndef VF_H
#define VF_H
#include <stddef.h>
#include <stdint.h>
#include <stdbool.h>

#ifdef VF_NATIVE
#include "vf_native.h"
#else
#define VF_NONDET_BODY(T) { T v; return v; }
#endif

_Bool     VF_nondet_bool(void)     VF_NONDET_BODY(_Bool)
size_t    VF_nondet_size_t(void)   VF_NONDET_BODY(size_t)
uint8_t   VF_nondet_u8(void)       VF_NONDET_BODY(uint8_t)
uint32_t  VF_nondet_u32(void)      VF_NONDET_BODY(uint32_t)
uint64_t  VF_nondet_u64(void)      VF_NONDET_BODY(uint64_t)
int       VF_nondet_int(void)      VF_NONDET_BODY(int)
int64_t   VF_nondet_i64(void)      VF_NONDET_BODY(int64_t)
uintptr_t VF_nondet_uptr(void)     VF_NONDET_BODY(uintptr_t)

#define VF_MO_relaxed 0
#define VF_MO_consume 1
#define VF_MO_acquire 2
#define VF_MO_release 3
#define VF_MO_acq_rel 4
#define VF_MO_seq_cst 5

#ifndef VF_G
#define VF_G(p, o, n) ((void)0)
#endif
static void vf_interfere(void);

#define VF_LOAD(p, ...)        ({ vf_interfere(); *(p); })
#define VF_STORE(p, v, ...)    ({ vf_interfere(); __typeof__(*(p)) vf_sn = (v); VF_G((p), *(p), vf_sn); *(p) = vf_sn; (void)0; })
#define VF_XCHG(p, v, ...)     ({ vf_interfere(); __typeof__(*(p)) vf_xo = *(p); __typeof__(*(p)) vf_xn = (v); VF_G((p), vf_xo, vf_xn); *(p) = vf_xn; vf_xo; })
#define VF_RMW(p, expr)        ({ vf_interfere(); __typeof__(*(p)) vf_o = *(p); __typeof__(*(p)) vf_n = (__typeof__(*(p)))(expr); VF_G((p), vf_o, vf_n); *(p) = vf_n; vf_o; })
#define VF_FETCH_ADD(p, d, ...) VF_RMW(p, vf_o + (d))
#define VF_FETCH_SUB(p, d, ...) VF_RMW(p, vf_o - (d))
#define VF_FETCH_OR(p, d, ...)  VF_RMW(p, vf_o | (d))
#define VF_FETCH_AND(p, d, ...) VF_RMW(p, vf_o & (d))
/* e is a pointer to the expected value; weak CAS may fail spuriously */
#define VF_CAS_STRONG(p, e, d, ...) ({ vf_interfere(); __typeof__(*(p)) vf_c = *(p); __typeof__(*(p)) vf_d = (d); _Bool vf_ok = (vf_c == *(e)); if (vf_ok) { VF_G((p), vf_c, vf_d); *(p) = vf_d; } else { *(e) = vf_c; } vf_ok; })
#define VF_CAS_WEAK(p, e, d, ...)   ({ vf_interfere(); __typeof__(*(p)) vf_c = *(p); __typeof__(*(p)) vf_d = (d); _Bool vf_ok = (vf_c == *(e)) && VF_nondet_bool(); if (vf_ok) { VF_G((p), vf_c, vf_d); *(p) = vf_d; } else { *(e) = vf_c; } vf_ok; })
#define VF_FENCE(...)          vf_interfere()

#define VF_EXCHANGE(a, b)      ({ __typeof__(a) vf_e = (a); (a) = (b); vf_e; })
#define VF_SWAP(a, b)          do { __typeof__(a) vf_t = (a); (a) = (b); (b) = vf_t; } while (0)
#define VF_MIN(a, b)           ({ __typeof__(a) vf_a = (a); __typeof__(b) vf_b = (b); vf_b < vf_a ? vf_b : vf_a; })
#define VF_MAX(a, b)           ({ __typeof__(a) vf_a = (a); __typeof__(b) vf_b = (b); vf_a < vf_b ? vf_b : vf_a; })

/* the code's own assertions (no-ops in the release build) are obligations */
#define VF_STR2(x) #x
#define VF_STR(x) VF_STR2(x)
#define VF_ASSERT(e)           __CPROVER_assert((e), "P-int: UNIFEX_ASSERT(" #e ")")
#define VF_P(e, msg)           __CPROVER_assert((e), "P: " msg)
#define VF_A(e, msg)           __CPROVER_assert((e), "A: " msg)
/* vacuity canary: must FAIL (reachable); a canary that passes means a
 * contradictory requires / rely */
#define VF_CANARY(msg)         __CPROVER_assert(0, "VACUITY-CANARY: " msg)
#define VF_terminate()         do { __CPROVER_assert(0, "P-int: std::terminate() reached"); __CPROVER_assume(0); } while (0)

/* loop-outlining exit codes (cut-point segments, section 3.3) */
#define VF_X_CONTINUE 0
#define VF_X_BREAK    1
#define VF_X_RETURN   2

static inline void VF_yield(void) {}
#endif
