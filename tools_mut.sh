#!/bin/bash
# usage: tools_mut.sh <PID> <group> <file-relative-to-repo> <sed-expr>
# Applies a mutation to a SCRATCH COPY of /repo's include/ and source/ (never to /repo itself), runs the
# group's check against that copy (VF_REPO), prints the verdict lines.  Safe to run in parallel for different groups.
pid=$1; grp=$2; f=$3; expr=$4
scratch=/tmp/vfmut/$grp.$$
mkdir -p $scratch && rsync -a --delete /repo/include /repo/source $scratch/ || exit 9
sed -i "$expr" $scratch/$f
if diff -q /repo/$f $scratch/$f >/dev/null; then echo "MUTATION DID NOT CHANGE THE FILE"; rm -rf $scratch; exit 9; fi
diff /repo/$f $scratch/$f | head -8
cd /verif && VF_REPO=$scratch VF_NO_EVIDENCE=1 VF_OUT=/tmp/vfmut/out.$grp.$$ ./check $pid --group $grp 2>&1 | grep -E "VIOLATION|UNDECIDED|failed obligation|tier=" | cut -c1-300 | head -14
rm -rf $scratch /tmp/vfmut/out.$grp.$$
