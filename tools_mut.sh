#!/bin/bash
# usage: tools_mut.sh <PID> <file> <sed-expr>   : apply a mutation to /repo, run check, revert
pid=$1; f=$2; expr=$3
cd /repo && sed -i "$expr" $f && (git diff --stat | head -3; cd /verif && ./check $pid 2>&1 | grep -E "VIOLATION|UNDECIDED|failed obligation|tier=" | cut -c1-260 | head -12); cd /repo && git checkout -- . 
