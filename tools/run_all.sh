#!/bin/bash
# run_all.sh [tier] : run every claimed property's check in /verif against /repo (rewrites evidence/*.json), one after the other
cd /verif; tier=${1:-quick}
for p in $(python3 -c "import json;print(' '.join(c['property_id'] for c in json.load(open('MANIFEST.json'))['checks']))"); do
  ./check $p --tier $tier 2>&1 | grep -E "^(VIOLATION|UNDECIDED|KNOWN-FINDING|C[0-9]+ tier)" | cut -c1-160
done
