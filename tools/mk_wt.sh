#!/bin/bash
# mk_wt.sh <PID> [jobs] : scratch git worktree of /repo at /tmp/wt/<PID> with a configured and fully built _build
# (same options as /repo/_build), plus the output dir /tmp/wt/<PID>-out for the sub-agent's patch<n>.diff / demo<n>.cpp
P=$1; J=${2:-6}; WT=/tmp/wt/$P
mkdir -p /tmp/wt /tmp/wt/$P-out
[ -d $WT ] || git -C /repo worktree add --detach $WT HEAD >/dev/null 2>&1 || exit 1
cd $WT && cmake -G Ninja -S . -B _build -DCMAKE_BUILD_TYPE=RelWithDebInfo -DCMAKE_CXX_FLAGS=-Wno-error -DUNIFEX_USE_SYSTEM_GTEST=ON -DUNIFEX_BUILD_EXAMPLES=ON -DBUILD_TESTING=ON > /tmp/wt/$P-out/configure.log 2>&1
cmake --build _build -j$J -- -k 0 > /tmp/wt/$P-out/build0.log 2>&1
ctest --test-dir _build -j$J --timeout 900 2>&1 | tail -4 > /tmp/wt/$P-out/ctest0.log
cat /tmp/wt/$P-out/ctest0.log
