#!/bin/bash
# try_patch.sh <PROP> <patchfile> [extra check args] : apply a patch to a scratch copy of /repo's sources and run the property's quick check against it
prop=$1; pf=$2; shift 2
s=/tmp/vftry/$prop.$$; mkdir -p $s && rsync -a /repo/include /repo/source $s/
(cd $s && patch -p1 --no-backup-if-mismatch -s < $pf) || { echo PATCH-DOES-NOT-APPLY; rm -rf $s; exit 3; }
VF_REPO=$s VF_NO_EVIDENCE=1 VF_OUT=/tmp/vftry/out.$prop.$$ ./check $prop "$@" 2>&1 | grep -E "^VIOLATION|^UNDECIDED|failed obligation|tier=" | cut -c1-260 | head -12
rm -rf $s /tmp/vftry/out.$prop.$$
