#!/bin/bash
# confirm_seed.sh <PROP> <n> : confirm seeded change n of property PROP in its scratch worktree /tmp/wt/<PROP>
# (compiles, suite passes with the change, demo fails with it and passes without). Writes /tmp/wt/<PROP>-out/confirm<n>.log
P=$1; N=$2; WT=/tmp/wt/$P; OUT=/tmp/wt/$P-out; LOG=$OUT/confirm$N.log
exec > $LOG 2>&1
set -x
cd $WT || exit 9
git checkout -- . ; git apply --check $OUT/patch$N.diff || { echo "CONFIRM: patch does not apply"; exit 1; }
head -3 $OUT/demo$N.cpp
BUILD=$(head -1 $OUT/demo$N.cpp | sed 's#^// *##; s#^/\* *##; s#\*/ *$##')
echo "BUILD CMD: $BUILD"
# 1. without the change
cmake --build _build -j6 -- -k 0 > /dev/null 2>&1
cd $OUT && rm -f demo$N a.out; bash -c "$BUILD" ; R0=$?
echo "CONFIRM: demo without change rc=$R0"
# 2. with the change
cd $WT && git apply $OUT/patch$N.diff && cmake --build _build -j6 -- -k 0 2>&1 | grep -E "FAILED|error" | grep -v maybe-uninit | head
ctest --test-dir _build -j6 --timeout 900 2>&1 | tail -6
cd $OUT && bash -c "$BUILD"; R1=$?
echo "CONFIRM: demo with change rc=$R1"
cd $WT && git checkout -- . && cmake --build _build -j6 -- -k 0 > /dev/null 2>&1
echo "CONFIRM-SUMMARY: without=$R0 with=$R1"
