#!/bin/bash
# run_seeds.sh [id ...] : apply each seeded change (seeded/<id>/patch.diff, or patch_rebased_on_fix.diff if present) to a scratch
# copy of /repo's sources and run the quick check of the property it breaks.  Prints one line per seed: CAUGHT / MISSED / UNDECIDED.
cd /verif
ids="$@"; [ -z "$ids" ] && ids=$(ls seeded)
for id in $ids; do
  d=seeded/$id; prop=$(python3 -c "import json;print(json.load(open('$d/meta.json'))['property'])")
  s=/tmp/vfseed/$id.$$; mkdir -p $s && rsync -a /repo/include /repo/source $s/
  pf=$d/patch.diff; [ -f $d/patch_rebased_on_fix.diff ] && pf=$d/patch_rebased_on_fix.diff
  if ! (cd $s && patch -p1 --no-backup-if-mismatch -s < /verif/$pf) >/dev/null 2>&1; then echo "$id $prop PATCH-DOES-NOT-APPLY"; rm -rf $s; continue; fi
  out=$(VF_REPO=$s VF_NO_EVIDENCE=1 VF_OUT=/tmp/vfseed/out.$id.$$ ./check $prop 2>&1)
  if echo "$out" | grep -q "^VIOLATION"; then v=CAUGHT; elif echo "$out" | grep -q "^UNDECIDED"; then v=UNDECIDED; else v=MISSED; fi
  echo "$id $prop $v :: $(echo "$out" | grep -E "failed obligation" | head -2 | cut -c1-160 | tr '\n' '|')"
  rm -rf $s /tmp/vfseed/out.$id.$$
done
