#!/usr/bin/env python3
"""gen_groups_table.py : print the property -> groups table of DESIGN.md 12.1 from the enabled specs (units serving each property)"""
import importlib.util, os, sys
V = os.path.dirname(os.path.dirname(os.path.abspath(__file__)))
sys.path.insert(0, V)
en = [l.strip() for l in open(os.path.join(V, 'specs/ENABLED')) if l.strip() and not l.startswith('#')]
tab = {}
for g in en:
    sp = importlib.util.spec_from_file_location('s_' + g, os.path.join(V, 'specs', g, 'spec.py'))
    m = importlib.util.module_from_spec(sp); sp.loader.exec_module(m)
    S = m.SPEC
    for u in S['units']:
        for p in u.get('props', S['properties']):
            if p in S['properties']:
                d = tab.setdefault(p, {}).setdefault(g, [0, 0])
                d[0] += 1
                d[1] += 1 if u.get('mode') == 'bounded' else 0
print('| property | enabled groups serving it (units; b = of which bounded stand-ins) |')
print('|---|---|')
for p in sorted(tab):
    print('| %s | %s |' % (p, ', '.join('%s (%d%s)' % (g, n[0], ', %db' % n[1] if n[1] else '') for g, n in tab[p].items())))
