#!/usr/bin/env python3
"""save_seed.py <PROP> <n> <needs-text> [<dest-n>] : copy a confirmed seeded change from /tmp/wt/<PROP>-out into /verif/seeded/<PROP>-<n>/"""
import json, os, re, shutil, sys
P, N, needs = sys.argv[1], sys.argv[2], sys.argv[3]
src = '/tmp/wt/%s-out' % P
D = sys.argv[4] if len(sys.argv) > 4 else N
dst = '/verif/seeded/%s-%s' % (P, D)
os.makedirs(dst, exist_ok=True)
shutil.copy(os.path.join(src, 'patch%s.diff' % N), os.path.join(dst, 'patch.diff'))
shutil.copy(os.path.join(src, 'demo%s.cpp' % N), os.path.join(dst, 'demo.cpp'))
log = open(os.path.join(src, 'confirm%s.log' % N)).read()
suite = re.findall(r'\d+% tests passed, \d+ tests failed out of \d+', log)
summ = re.findall(r'^CONFIRM-SUMMARY: (.*)$', log, flags=re.M)
files = re.findall(r'^\+\+\+ b/(.*)$', open(os.path.join(dst, 'patch.diff')).read(), flags=re.M)
meta = dict(property=P, change=int(D), files=files, needs_to_manifest=needs,
            origin='written by an independent sub-agent that saw only the property text and a scratch worktree',
            confirmed=dict(how='tools/confirm_seed.sh %s %s in the scratch worktree /tmp/wt/%s: build demo on clean tree and run (must pass), apply patch, rebuild library and tests, ctest, run demo (must fail), revert' % (P, N, P),
                           test_suite_with_change=suite[0] if suite else None, demo=summ[0] if summ else None))
json.dump(meta, open(os.path.join(dst, 'meta.json'), 'w'), indent=1)
print(dst, meta['confirmed'])
